"""Per-property configuration of ./check: which contracts, which bounded refuter shapes, which native stand-in."""

PROPS = {
    "C03": dict(
        modules=["common", "c03"],
        contracts=["parse_range"],
        refute={"quick": [1, 2], "thorough": [0, 1, 2, 3]},
        native="c03",
        level="proof",
        trusted=["A-py-1", "A-solver", "A-pyvc"],
        level_text="Every clause of the property (rejection exact; result non-empty, within [0,size), ascending, disjoint, "
                   "non-adjacent; union == denotation of the specs, for an arbitrary byte position) is a postcondition / "
                   "exceptional postcondition of the real parse_range; the VCs are generated from its AST on every run and "
                   "discharged by z3/cvc5 for all sizes, all spec lists of any length and every loop iteration (merge-loop "
                   "invariant). A bounded symbolic refuter and an exhaustive small-domain run of the real function through "
                   "the regex front end stand beside the proof (labelled bounded).",
        level_note="Trusted: re.findall returns pairs of (possibly empty) decimal numerals (A-re-1); int() on such a numeral of "
                   "<= 4300 digits is its value (A-int-1); sorted() is an ordered permutation (A-sorted); str.split at the first "
                   "'=' (A-split); the VC generator itself (A-pyvc; guarded by canaries, the refuter and mutation runs); solver "
                   "answers (A-solver). The regex front end is covered by the bounded stand-in only. Unicode digits accepted by "
                   "\\d are outside the model.",
        technique="deductive verification: contracts on the real function, VCs from the AST, SMT (z3/cvc5); loop invariant for the merge loop",
        explanation="",
    ),
}

C02_CONTRACTS = ["generate_multipart", "judge_if_range",
                 "wsgi.handle_all", "wsgi.handle_single_range", "wsgi.handle_several_ranges", "wsgi.FileResponse.__call__",
                 "asgi.fake_sendfile", "asgi.zerocopy_sendfile", "asgi.handle_all", "asgi.handle_single_range",
                 "asgi.handle_several_ranges", "asgi.FileResponse.__call__", "parse_range"]

PROPS["C02"] = dict(
    modules=["common", "hdrs", "c03", "c02"],
    contracts=C02_CONTRACTS,
    refute={"quick": [2], "thorough": [1, 2, 3]},
    native="c02",
    level="proof",
    trusted=["A-py-1", "A-solver", "A-pyvc"],
    level_text="Every function between the request and the emitted bytes is under contract: the closed-form multipart "
               "Content-Length equals the bytes of the body it describes (sum over parts of header+slice+LF plus the closing "
               "line, for any number of ranges); the three WSGI chunk readers and the ASGI emulated sendfile (both loops) and "
               "the zero-copy sendfile emit exactly the requested slice (every file chunk starts where the previous ended, "
               "declared length == emitted length, HEAD == same headers + empty body), for all sizes, chunk sizes and "
               "ranges; the dispatch honours Range only when If-Range is absent or equals the ETag / Last-Modified value "
               "and hands the handlers ranges that satisfy their preconditions (C03's postcondition); 400/416 open no "
               "file and 416 carries Content-Range */size. Obligations are generated from the ASTs on every run and "
               "discharged by z3/cvc5; an end-to-end run on real temp files stands beside it (bounded).",
    level_note="Trusted: file model (A-fs-1 size unchanged between stat and read; A-fs-2 regular-file reads are not short; "
               "A-zc zero-copy server semantics); the server's send/start_response do not raise (A-server); list_headers "
               "returns the header map's items (A-list-headers: the call-site summary; the real body is verified against a "
               "concrete list by the contract list_headers[body] of C05/C13); "
               "StatusStringMapping[c] is the table entry (A-status-table); etag/httpdate uninterpreted (A-sha-1, A-fmt-1); "
               "random boundary alphabet (A-random); run_in_threadpool(f,*a) == f(*a) (A-conc-1); fold extensionality "
               "(A-fold-ext); await erased (no interleaving); closing of the file object by `with` is not modelled (WSGI). "
               "The two tiny event builders send_http_start/send_http_body and the exception constructors are executed inline. HEAD never has a body, also on the 400 / 416 answers (clause strengthened after fix 9e1100a).",
    technique="deductive verification: contracts + ghost emission trace on the real handlers, loop invariants, SMT (z3/cvc5)",
    explanation="",
)

PROPS["C11"] = dict(
    modules=["common", "c11"],
    contracts=["ws.__init__", "ws.receive", "ws.send", "ws.accept", "ws.close", "ws.receive_text", "ws.receive_bytes",
               "ws.send_text", "ws.send_bytes", "ws.iter_text", "ws.iter_bytes"],
    refute={"quick": [3], "thorough": [2, 3, 4]},
    native="c11",
    level="proof",
    trusted=["A-py-1", "A-solver", "A-pyvc"],
    level_text="The wrapper is verified as a data structure against an abstract view: ghost automaton of the events actually "
               "forwarded to the server, cursor into the server's event script, disconnect-delivered flag. A representation "
               "invariant I links the two state fields to that ghost state; __init__ establishes I and every public method "
               "is proved to require only I and to re-establish it (so any call sequence keeps I: induction over the history), "
               "to forward only legal steps (obligation at every _send), to forward nothing when it raises, never to call the "
               "server's receive after a disconnect was delivered, to return the script's frames in order exactly once, to "
               "move both states forward only, and close to be idempotent. All obligations are generated from the real "
               "methods and discharged by z3/cvc5 for every state satisfying I and every legal server script.",
    level_note="Trusted: the server script is ASGI-legal (connect first, frames, one final disconnect: A-server) and finite; "
               "repository asserts are enabled (no -O); await erased (one task); message dicts carry all payload keys "
               "(a typed receive on the connect event raises KeyError natively and forwards nothing: outside C11's clauses). "
               "WebsocketDenialResponse / websocket_session / request_response are covered by the bounded stand-in only.",
    technique="deductive verification: representation invariant + per-method contracts on the real class, SMT (z3/cvc5)",
    explanation="",
)

PROPS["C05"] = dict(
    modules=["common", "hdrs", "c03", "c02", "c05"],
    contracts=["asgi.Response.__call__", "wsgi.Response.__call__", "asgi.SmallResponse.__call__", "wsgi.SmallResponse.__call__",
               "asgi.StreamingResponse.__call__", "Headers.__init__", "MutableHeaders.__setitem__",
               "MutableHeaders.__init__[pairs]", "MutableHeaders.__init__[mapping]",
               "wsgi.handle_all", "wsgi.handle_single_range", "wsgi.handle_several_ranges", "wsgi.FileResponse.__call__",
               "asgi.fake_sendfile", "asgi.zerocopy_sendfile", "asgi.handle_all", "asgi.handle_single_range",
               "asgi.handle_several_ranges", "asgi.FileResponse.__call__", "list_headers[body]"],
    refute={"quick": [2], "thorough": [1, 2, 3]},
    native="c05",
    level="proof",
    trusted=["A-py-1", "A-solver", "A-pyvc"],
    level_text="The gateway protocol is a ghost automaton (ASGI: start once and first, body events with more_body false only on "
               "the last, nothing afterwards; WSGI: start_response once and before the first chunk, bytes only) whose legality is "
               "an obligation at EVERY emission of every response __call__ on both sides, so every prefix of the emitted "
               "sequence is legal: the ASGI streaming loop is proved with an abstract producer that may raise at any step and "
               "a volatile disconnect flag (client disconnect at any await), with the producer closed exactly once on every "
               "exit; header names on hand-built lists are lower-case bytes; status is the int / the table line. "
               "Obligations are generated from the real ASTs and discharged by z3/cvc5; the recording-server run over all "
               "response classes with injected faults stands beside it (bounded), including the exhaustive status table.",
    level_note="Trusted: the server's send/start_response do not raise (A-server); list_headers emits the header map's items and "
               "one set-cookie line per cookie (the call-site summary A-list-headers abstracts the contract list_headers[body], "
               "which verifies the real body: exactly the mapping's items, then one set-cookie line per cookie, in order); header map values stay clean through "
               "MutableHeaders.__setitem__ (proved, C13) and are clean from construction on (MutableHeaders.__init__ rejects CR / LF / NUL "
               "in constructor-supplied names and values: proved for the pair-list and the mapping branch; ValueError only when an "
               "input holds one); "
               "StatusStringMapping (A-status-table: validated exhaustively over 100..999 on every run); await erased, "
               "one task (the watcher only flips the volatile flag); the SSE / Stream render_stream producers (threads, queues) "
               "are covered by the bounded layer only; Latin-1 encodability of generated header values is checked bounded.",
    technique="deductive verification: emission-trace ghost automaton as obligations at every send/yield/start_response, SMT (z3/cvc5)",
    explanation="",
)

PROPS["C09"] = dict(
    modules=["common", "hdrs", "c03", "c02", "c05", "c09"],
    contracts=["BaseSubpaths.__init__", "BaseSubpaths.search", "asgi.Subpaths.__call__", "wsgi.Subpaths.__call__",
               "BaseHosts.search", "asgi.Hosts.__call__", "wsgi.Hosts.__call__"],
    refute={"quick": [2], "thorough": [1, 2, 3]},
    native="c09",
    level="proof",
    trusted=["A-py-1", "A-solver", "A-pyvc"],
    level_text="search() returns the FIRST entry whose prefix equals the path or is followed by '/' in it (loop invariant over the "
               "table, any length), None iff there is none; on a hit both Subpaths.__call__ hand the sub-application (an opaque "
               "callable whose call is recorded in ghost state) root+prefix and path[len(prefix):] with root'+path' == root+path "
               "(string lemma discharged by z3/cvc5 for all strings) and a remainder that is empty or starts with '/' (from the "
               "constructor's class invariant), call it exactly once and emit nothing themselves; on a miss the request is "
               "untouched (frame) and the bundled 404 response is emitted (its contract from C05). Nested mounts compose by "
               "applying the same contract twice (lemma). Hosts: first pattern whose fullmatch accepts the Host value "
               "(ASGI: last host header, default ''), else the 404 response.",
    level_note="Trusted: compiled-pattern fullmatch is language membership (A-re-2, uninterpreted); the server's send / "
               "start_response do not raise (A-server); sub-applications are opaque (their call is observed, their behaviour is "
               "not constrained); `*routes` modelled as the list of its elements; lifespan scopes excluded (documented "
               "RuntimeError). WSGI: PATH_INFO is the Latin-1 reading of the path bytes; matching is on its UTF-8 reading and what is written back is converted back (A-transcode: wsgi_enc(wsgi_dec(x)) == x, wsgi_enc is a homomorphism for concatenation, ASCII is fixed - used as ground instances; the codec calls themselves are exercised by the bounded layer with non-ASCII prefixes).",
    technique="deductive verification: first-match loop invariants, string lemma for the path rewrite, ghost call recorder, SMT (z3/cvc5)",
    explanation="",
)

PROPS["C08"] = dict(
    modules=["common", "hdrs", "c03", "c02", "c05", "c09", "c08"],
    contracts=["BaseRouter.search", "asgi.Router.__call__", "wsgi.Router.__call__", "convertor.languages", "conv.StringConvertor.to_python", "conv.StringConvertor.to_string", "conv.IntegerConvertor.to_string", "conv.IntegerConvertor.to_python", "conv.AnyConvertor.to_python", "conv.AnyConvertor.to_string"],
    no_refute=["convertor.languages"],
    refute={"quick": [2], "thorough": [1, 2, 3]},
    native="c08",
    level="other",
    trusted=["A-py-1", "A-solver", "A-pyvc"],
    level_text="Mixed. PROVED: (1) the regex constant of every convertor class, read from the real source on each run and "
               "translated to an SMT regular expression, denotes exactly the language of the statement (six language-equivalence "
               "lemmas; a witness word is replayed through Route.matches); (2) BaseRouter.search returns the first route, in "
               "declaration order, whose matches() accepts the path together with exactly its parameters, None iff none (loop "
               "invariant, any table length); (3) both Router.__call__ store exactly those parameters, call exactly that "
               "endpoint once and emit nothing themselves, else emit the bundled 404 and leave the request's parameters "
               "untouched; (4) for the convertors whose conversion is plain Python - str, int, any - the real to_string / "
               "to_python: to_string returns a word of the placeholder's language or raises ValueError exactly for values that "
               "have none ('' or with '/', negative), to_python accepts every word of the language, and int(str(n)) == n "
               "(A-int-1). BOUNDED (labelled): Decimal / UUID / date conversion and round trips, and that literal route text "
               "is matched verbatim (pattern construction in Route.__init__/compile_path) are run-time checks of the real "
               "code against a reference dispatcher over enumerated words/tables - Decimal/UUID/date are stdlib objects.",
    level_note="Trusted: re fullmatch == language membership (A-re-2) and the regex->SMT translation of pyvc.regex (subset: classes, "
               "ranges, groups, alternation, * + ? {n}); Route.matches is summarised for the router by uninterpreted "
               "route_matches/route_params; int() of <= 4300 digits. Not proved: Route.__init__, compile_path, to_python / "
               "to_string (bounded only).",
    technique="deductive verification: language-equivalence lemmas over the real regex constants (SMT regex theory) + first-match loop invariant; bounded run-time contracts for conversion/round trip",
    explanation="proved: convertor languages (6 lemmas), first-match search, parameter hand-off on both routers; bounded: value "
                "conversion, round trips, verbatim literals (native reference dispatcher).",
)

PROPS["C13"] = dict(
    modules=["common", "hdrs", "c03", "c02", "c05", "c13"],
    contracts=["MutableHeaders.__setitem__", "MutableHeaders.__delitem__", "MutableHeaders.append", "Headers.__getitem__",
               "Headers.__init__", "MutableHeaders.__init__[pairs]", "cookie.table", "Cookie._quote", "Cookie.__str__",
               "wsgi.RedirectResponse.__init__", "asgi.RedirectResponse.__init__", "list_headers[body]"],
    no_refute=["cookie.table"],
    refute={"quick": [2], "thorough": [1, 2, 3]},
    native="c13",
    level="proof",
    trusted=["A-py-1", "A-solver", "A-pyvc"],
    level_text="Mapping invariant CLEAN (no stored name or value contains CR, LF or NUL): __setitem__ raises ValueError and leaves the "
               "map unchanged if key or value contains one, otherwise stores lower(key) -> value; it and __delitem__ and "
               "append (proved against __setitem__'s contract, incl. the old+', '+value join) preserve CLEAN; update/setdefault "
               "are the MutableMapping mixins that mutate only through these. Cookies: the real escape table is checked for all "
               "256 code points (exhaustive, hence complete); Cookie._quote returns either the value unchanged (all characters "
               "legal) or the quoted homomorphic image, in both cases free of CR, LF, NUL, ';' and ','; Cookie.__str__ (all 216 "
               "attribute combinations) is free of CR/LF/NUL, starts with quote(name)=quote(value), that pair contains no ';' "
               "and is followed by '; ' - so name/value cannot introduce an attribute or a header. Redirect: the target is "
               "escaped and stored through __setitem__, which can then never reject it. MutableHeaders.__init__ establishes CLEAN "
               "for constructor-supplied headers (pair list, folded duplicates included).",
    level_note="Trusted: str.lower introduces no CR/LF/NUL (A-lower); collections.abc mixins mutate only via __setitem__/"
               "__delitem__ (A-abc-1); re fullmatch (A-re-2); str.translate is the character-wise homomorphism of the table "
               "(A-translate); urllib.parse.quote emits only unreserved/safe/%HH (A-quote-1); strftime output (A-time-1); "
               "cookie attributes path/domain/samesite are required clean (not sources of C13); list_headers' body "
               "is verified by the contract list_headers[body] (exactly the mapping's items, then one set-cookie line per cookie "
               "carrying str(cookie), nothing else); the read-only Headers.__init__ does not filter what it is given, but "
               "MutableHeaders.__init__ (the mapping every response owns) does: CLEAN holds from construction on (proved: the "
               "constructor raises ValueError only when a given name or value holds CR / LF / NUL, and a redirect's extra headers "
               "are the only thing that can make RedirectResponse raise).",
    technique="deductive verification: class invariant of the header mapping, exhaustive finite table lemma, string-level contracts for cookie quoting, SMT (z3/cvc5)",
    explanation="",
)

PROPS["C17"] = dict(
    modules=["common", "c17"],
    contracts=["mm.__init__", "mm.append", "mm.getlist", "mm.__getitem__", "mm.multi_items", "mm.__delitem__", "mm.setlist", "mm.poplist", "mm.__setitem__"],
    refute={"quick": [2], "thorough": [1, 2, 3]},
    native="c17",
    level="other",
    trusted=["A-py-1", "A-solver", "A-pyvc"],
    level_text="Mixed. PROVED for lists of any length: the representation invariant R (the dict holds exactly the keys of the pair list "
               "and, for each key, its LAST value) is established by __init__ and preserved by append, __setitem__, __delitem__, setlist "
               "and poplist, each with its effect on the abstract view (the pair list): append adds one pair at the end; del removes "
               "exactly the pairs of the key, keeps the others, raises KeyError iff absent and then changes nothing; setlist "
               "replaces the key's pairs by the new ones at the end / removes them when empty; poplist returns the key's "
               "values; getlist returns exactly the key's values; indexing returns the last one; multi_items is the list; "
               "assignment (__setitem__, an in-place deletion loop over the reversed key positions, proved with ghost code: two "
               "ghost maps between old and current positions, updated by ghost statements attached to `del self._list[index]`) "
               "puts the new value at the FIRST occurrence, removes every other occurrence and keeps all other pairs in their "
               "order, or appends when the key is absent. So every primitive the stdlib mixins build on is under contract. "
               "BOUNDED (labelled): the MutableMapping mixins (pop, popitem, setdefault, update, clear), QueryParams/"
               "FormData and the query-string round trip are compared after every step with a plain ordered list over all "
               "operation sequences up to the stated bound.",
    level_note="Trusted: dict(pairs) keeps the last value per key (A-dict-1); Mapping/MutableMapping mixins go through "
               "__getitem__/__setitem__/__delitem__ (A-abc-1); filter lemmas of the comprehension encoding (A-filter-total); "
               "parse_qsl/urlencode inverse (A-qs-1, bounded only). Keys and values are opaque (only equality).",
    technique="deductive verification: representation invariant + per-method view contracts (quantified arrays, comprehension encoding, ghost position maps for the in-place loop), SMT; bounded reference-model run for the rest",
    explanation="proved: R established/preserved and view effects for __init__, append, __setitem__, __delitem__, setlist, poplist, "
                "getlist, __getitem__, multi_items; bounded: mixin mutators, QueryParams/FormData, query round trip.",
)

PROPS["C14"] = dict(
    modules=["common", "hdrs", "c03", "c02", "c14", "c07"],
    contracts=["if_none_match", "if_modified_since", "wsgi.Files.file_response", "asgi.Files.file_response", "check_path_is_file",
               "wsgi.Files.__call__", "asgi.Files.__call__", "wsgi.Pages.__call__", "asgi.Pages.__call__"],
    refute={"quick": [2], "thorough": [1, 2, 3]},
    native="c14",
    level="other",
    trusted=["A-py-1", "A-solver", "A-pyvc"],
    level_text="Mixed. PROVED: if_none_match(etag, h) is true exactly when h is '*' or some comma-separated member, after removing "
               "blanks, a weak prefix and quotes, equals the ETag (for any number of members); if_modified_since is true exactly "
               "when the date parses and floor(change time) <= floor(parsed time); both file_response functions answer 304 "
               "exactly when the ETag validator (if present, else the date validator) matches the CURRENT stat result - they "
               "read no other state, so the answer depends only on the current file state and the presented validators - "
               "and attach the cache headers on both outcomes; the four applications (Files / Pages, both interfaces) take that "
               "decision for the validators THIS request presented (WSGI: the two environ variables; ASGI: every If-None-Match "
               "line joined into one list, the last If-Modified-Since line - loop invariant over the header list) against the "
               "stat result that os.stat returned during THIS request for the very file that is served "
               "(`conditional_decision`, `decided_on_current_state`, `validators_from_request`). BOUNDED (labelled): the history clauses (no stale 304 after a "
               "detectable modification, a fresh copy always revalidates in every validator form, '*' matches) are checked "
               "on real files with a virtualised clock over all single and double modification histories.",
    level_note="Trusted: ETag = uninterpreted function of (mtime, size) (A-sha-1); parsedate_to_datetime raises ValueError or "
               "returns a date (A-date-parse); int(float) is floor (A-float-floor); str.split(',') pieces (A-split); strip "
               "(A-lower). Known finding (open): a size change within the same second is not seen through a Last-Modified-only "
               "validator (one-second granularity of the date validator).",
    technique="deductive verification: exact functional contracts of the validator predicates and of the 304 decision, SMT; bounded history run on a virtual file clock",
    explanation="proved: validator predicates, the 304 decision of both interfaces and its wiring to the request's validators and "
                "the current stat result in the four applications; bounded: history clauses on a virtual clock.",
)

PROPS["C10"] = dict(
    modules=["common", "c10"],
    contracts=["cached_property.__get__", "c10.atomicity", "asgi.Request.stream", "wsgi.Request.stream"],
    no_refute=["c10.atomicity"],
    refute={"quick": [2], "thorough": [1, 2, 3]},
    native="c10",
    level="other",
    trusted=["A-py-1", "A-solver", "A-pyvc"],
    level_text="Mixed. PROVED: cached_property.__get__ computes the value exactly once per call, stores it (wrapped in one future "
               "iff awaitable) under the function's name in the instance dict and returns that same object, leaving other "
               "entries alone; it contains no await/yield (atomic), and in both stream() functions no suspension point lies "
               "between testing and setting the consumed flag (AST lemmas) - this reduces the concurrent clause to the "
               "sequential contracts. ASGI stream(): against a ghost server script of any length, it yields exactly the "
               "concatenation of the bodies of the messages it consumed, consumes each message at most once and none after "
               "the final chunk, ends only after a message with more_body false, raises ClientDisconnect iff the script "
               "ends with a disconnect (so a truncated body is never returned), raises RuntimeError('Stream consumed') iff "
               "already consumed and no completed cached body, and replays the cached body otherwise (loop invariant). WSGI "
               "stream(): yields exactly the input's bytes (short reads allowed), same error/replay behaviour. BOUNDED "
               "(labelled): body/json/form/close and whole access sequences, identity of cached results, and sets of "
               "concurrently awaiting tasks (samples schedules) are run against a reference automaton.",
    level_note="Trusted: an instance-dict entry shadows the non-data descriptor, so the wrapped function runs once per instance "
               "(A-py-1); the server script is http.request* then optionally http.disconnect (A-server); wsgi.input.read "
               "returns b'' only at the end (A-wsgi-1); ensure_future wraps without running (A-conc-1). Arbitrary "
               "interleavings beyond the atomicity argument (e.g. is_disconnected() racing a reader) are not covered. Known finding (open): the WSGI side returns a body that is shorter than CONTENT_LENGTH without any error (it has no disconnect error).",
    technique="deductive verification: contracts with ghost server script and loop invariants on the real stream()/cached_property, AST atomicity lemmas, SMT; bounded reference automaton for access sequences",
    explanation="proved: cached_property.__get__, atomicity side conditions, ASGI and WSGI Request.stream; bounded: body/json/form/"
                "close sequences, cached identity, concurrent awaits.",
)

PROPS["C20"] = dict(
    modules=["common", "hdrs", "c03", "c02", "c05", "c20"],
    contracts=["wsgi.ensure_next", "wsgi.NextResponse.from_app", "Headers.__init__", "Headers.__init__[mapping]",
               "MutableHeaders.__init__[mapping]",
               "asgi.CachedStream.push", "asgi.CachedStream.push_eof", "asgi.CachedStream.__anext__",
               "asgi.NextResponse.from_app.send", "asgi.NextResponse.render_stream", "asgi.StreamingResponse.__call__",
               "wsgi.middleware.wsgi", "wsgi.decorator.view", "asgi.decorator.view",
               "asgi.NextResponse.from_app", "asgi.middleware.asgi", "list_headers[body]"],
    refute={"quick": [2], "thorough": [1, 2, 3]},
    native="c20",
    level="other",
    trusted=["A-py-1", "A-solver", "A-pyvc"],
    level_text="Mixed. PROVED: the bytes produced by the WSGI body relay ensure_next concatenate to exactly the inner "
               "application's body (rest_from(0), the concatenation of all its chunks, defined by recursion and used through "
               "ground instances only), for re-iterable (list/tuple) and one-shot (generator) bodies of any length, including "
               "empty bodies and empty leading chunks; NextResponse.from_app (WSGI; ensure_next executed inline) runs the inner "
               "application exactly once, returns only after the application has called start_response - also for a "
               "generator-style application, which does so when it is first advanced -, takes the status code from the status "
               "line and the header mapping from the header list (Headers.__init__, also proved for the mapping-copy branch "
               "used by MutableHeaders(headers)), and relays the body bytes; on the ASGI side the closure that captures the inner application's messages "
               "(from_app.<locals>.send) takes, for EVERY message, the status and the header list from a start message and "
               "appends the body of a body message to the cached stream, closing it exactly when more_body is absent/false; "
               "CachedStream.push / push_eof / __anext__ keep 'content == everything pushed', and NextResponse.render_stream "
               "(an iterator-protocol loop with invariant) re-emits exactly the cached bytes; the ASGI NextResponse.from_app AS A WHOLE, "
               "for an abstract inner application that sends a start message and any number n >= 1 of body messages, returns a "
               "response with that status, that header mapping and a closed, rewound cached stream holding exactly the "
               "concatenation of all n bodies - the induction over the message sequence is carried out on the real closure "
               "(base / step for an arbitrary non-final message under the induction hypothesis / final message are obligations), "
               "and the ASGI wrapper that middleware(handler)(app) returns forwards exactly that; the WSGI wrapper that "
               "middleware(handler)(app) returns, with an identity handler, runs the inner application exactly once (from_app "
               "through its contract), calls the response it built exactly once and forwards its status and header mapping; "
               "the view wrappers of both `decorator` helpers run the inner view once with the same request and return its "
               "response; Headers.__init__ keeps every header name that occurs once with its value (names occurring several times "
               "are folded - the known finding); the ASGI StreamingResponse.__call__ that re-emits the relayed body is legal at "
               "every emission (from C05). BOUNDED (labelled): capture of status/headers, CachedStream, decorator/middleware "
               "wrappers and whole identity stacks of depth 0..3 over every response class and raw applications are compared "
               "with the bare application on a recording server (status, header multiset, body bytes, inner app ran once).",
    level_note="Trusted: the nested generator is run to completion (A-gen-eager); SpooledTemporaryFile returns what was written "
               "(A-spool-1, bounded only). Known finding (open): NextResponse stores the inner headers in a mapping, so "
               "header names that occur several times (e.g. two Set-Cookie lines) arrive folded into one comma-joined line.",
    technique="deductive verification: relay contract over an abstract (re-)iterable with ghost output bytes, SMT; bounded differential run of identity stacks",
    explanation="proved: ensure_next relay, WSGI from_app capture (status, headers, body, run-once, started-before-return), "
                "Headers.__init__ (pair list and mapping copy), streaming re-emission legality; ASGI per-message capture (send closure), CachedStream and its re-emission, ASGI from_app over whole message sequences "
                "(induction on the real closure) and the ASGI middleware wrapper; bounded: decorator/middleware stacks of depth 0..3.",
)

PROPS["C16"] = dict(
    modules=["common", "hdrs", "c03", "c02", "c05", "c13", "c16"],
    contracts=["cookie.table", "Cookie._quote", "Cookie.__str__", "set_cookie", "delete_cookie", "request.cookies"],
    no_refute=["cookie.table"],
    refute={"quick": [2], "thorough": [1, 2, 3]},
    native="c16",
    level="proof",
    trusted=["A-py-1", "A-solver", "A-pyvc"],
    level_text="Writer: the real escape table maps every code point 0..255 to ASCII text that is the character itself or exactly "
               "the escape http.cookies._unquote inverts (exhaustive finite lemma); _quote returns the value unchanged or "
               "'\"' + homomorphic image + '\"', without ';'; __str__ puts quote(name)=quote(value) first, ';'-free, max-age=<n> "
               "iff n > -1. Reader: the request-side parser stores, for every non-empty chunk of the Cookie header, "
               "strip(name) -> _unquote(strip(value)) with a later duplicate winning (loop invariant over any number of "
               "chunks). Attributes: set_cookie(expires=e) builds the cookie with Expires == UTC broken-down time of now+e "
               "(independent of the process time zone), delete_cookie sets expires=0 and max-age=0. The round trip itself "
               "composes writer and reader through A-cookie-1 / A-split and is additionally run on all values of length <= 1 "
               "and 3000+ longer ones (bounded).",
    level_note="Trusted: http.cookies._unquote inverts the octal / backslash escapes inside a quoted string and is the identity "
               "otherwise (A-cookie-1); str.translate is the character-wise homomorphism of the table (A-translate); "
               "header.split(';') returns the ';'-free pieces (A-split); fromtimestamp(t, tz=utc) is UTC broken-down time and "
               "strftime prints the fields (A-time-1; %a/%b assume the C locale); re fullmatch (A-re-2). A-cookie-1 and "
               "A-split are validated by the bounded round-trip run on every check.",
    technique="deductive verification: finite table lemma, string contracts for quoting/serialisation, loop invariant for the cookie parser, time-zone contract with uninterpreted local/UTC conversions, SMT",
    explanation="",
)

PROPS["C19"] = dict(
    modules=["common", "c19"],
    contracts=["sse.lemmas"],
    no_refute=["sse.lemmas"],
    native="c19",
    level="other",
    trusted=["A-py-1", "A-solver", "A-pyvc"],
    level_text="Mixed, mostly bounded. DECIDED DEDUCTIVELY: the set of strings the encoder treats as a line break inside `data` - "
               "read from the AST of build_bytes_from_sse on every run (the regex of re.split, or the documented break set of "
               "str.splitlines) - is exactly {CR, LF, CRLF} (language-equivalence lemma in the SMT regex theory, witness replayed "
               "through the real encoder and a reference EventSource parser); the ping literal of both interfaces is the "
               "comment block; the field-line layout is checked syntactically. BOUNDED (labelled): every block produced by "
               "the real encoder is decoded by a reference implementation of the WHATWG event-stream algorithm: data = "
               "'a'+c+'b' for every code point (exhaustive in the thorough tier), all short data strings over the break "
               "characters, field subsets, pings interleaved with events.",
    level_note="build_bytes_from_sse is a composition of generator expressions, map and itertools.chain over dict views - outside "
               "the executor's subset - so the block-decoding lemma is not proved; trusted: str.splitlines break set "
               "(A-lines-1), re semantics (A-re-2), the reference parser (written from the WHATWG algorithm).",
    technique="deductive: language-equivalence lemma over the line-break pattern read from the real AST (SMT regex theory); bounded: exhaustive code-point sweep through a reference EventSource parser",
    explanation="proved: separator language == {CR, LF, CRLF}, ping literal, field layout (syntactic); bounded: block decoding by "
                "a reference EventSource parser over all code points and short strings.",
)

PROPS["C18"] = dict(
    modules=["common", "c18"],
    contracts=["URL._build_url", "URL.replace", "URL.__init__[scope]", "URL.__init__[environ]", "URL.__repr__"],
    refute={"quick": [2], "thorough": [1, 2, 3]},
    native="c18",
    level="other",
    trusted=["A-py-1", "A-solver", "A-pyvc"],
    level_text="Mixed. PROVED (z3/cvc5 strings, all 50 paths): URL._build_url returns scheme://<Host header><path> when a Host "
               "header is given, else <path> without a server, else scheme://host[:port]<path> with the port elided iff it is "
               "the scheme's default or None, and appends '?'+query iff the query is non-empty; KeyError only for an unknown "
               "scheme without Host header.  URL.replace (all 95 paths over every combination of given / absent / None components, "
               "Optionals with symbolic None flags): the new URL is geturl() of the five split fields where scheme, path, "
               "query and fragment are the given value or the old one, and the authority is re-assembled as "
               "[user[:password]@]host[:port] from the given-or-old user, password and port and - unless a hostname is given "
               "- the old host, i.e. the text after the LAST '@' without a trailing :port (IP literals in brackets kept whole); "
               "no IndexError for an empty host; ValueError only because the re-assembled text is parsed again (urlsplit may reject it).  "
               "URL.__repr__ never raises, whatever the authority looks like: without a password it prints the URL text, with "
               "one it replaces the text between the first ':' of the user information and the last '@' by the mask, without "
               "parsing the result again.  URL.__init__ (the constructor from an ASGI scope and from a WSGI environ, "
               "_build_url through its contract): the stored text is that builder applied to exactly the request's components - "
               "scope: scheme (default http), root_path + path, query_string, server, and the FIRST b'host' header (loop with "
               "break, invariant over the header list); environ: wsgi.url_scheme, the UTF-8 reading of SCRIPT_NAME + PATH_INFO, "
               "QUERY_STRING, (SERVER_NAME, int(SERVER_PORT)) and HTTP_HOST - so both constructions are the same function of "
               "corresponding fields. BOUNDED (labelled): the environ / scope parity on concrete requests, replace observed through urlsplit on named/IPv4/IPv6 hosts "
               "with user, password (incl. a literal '@') and port, the query helpers and the password masking of repr are "
               "run over an enumerated grid.",
    level_note="Trusted: bytes.decode() as utf8_decode/utf8_ok (uninterpreted); SplitResult is abstract in the replace "
               "contract: _replace is a field-wise copy, geturl an uninterpreted function of the five fields (A-urlsplit-2), "
               "and username/password are tied to netloc by the input invariant 'the text before the last @ is user[:password]' "
               "(A-urlsplit, stated as precondition); that urlsplit parses the re-assembled authority back into the same "
               "components is stdlib behaviour, checked bounded only (A-url-1); the server's environ<->scope mapping (A-wsgi-2). Known findings (open): a decoded path containing '?' or '#' is pasted into the URL text unquoted; replace() splices user names / passwords containing URL delimiters in unquoted.",
    technique="deductive verification: exact string contracts of the URL builder and of component-wise replace over all branch combinations, SMT strings (z3/cvc5 raced); bounded grid for construction parity and urlsplit round trips",
    explanation="proved: _build_url string construction, URL.__init__ from scope and from environ (which request fields go where), replace re-assembly of the authority; bounded: environ/scope parity on concrete requests, urlsplit round trip of replace, query helpers, repr masking.",
)

PROPS["C07"] = dict(
    modules=["common", "hdrs", "c03", "c02", "c14", "c07"],
    contracts=["ensure_absolute_path", "check_path_is_file", "BaseFiles.normalize_dir_path", "wsgi.Pages.ensure_absolute_path", "asgi.Pages.ensure_absolute_path",
               "wsgi.Files.__call__", "wsgi.Pages.__call__", "asgi.Files.__call__", "asgi.Pages.__call__"],
    refute={"quick": [2], "thorough": [1, 2, 3]},
    native="c07",
    level="other",
    trusted=["A-py-1", "A-solver", "A-pyvc"],
    level_text="Mixed; the confinement argument itself lives in posixpath. PROVED relative to the assumed posixpath contracts: "
               "ensure_absolute_path returns None or a path that is the configured directory or lies below it, namely the "
               "lexical resolution of the request path (plus the trailing '/' of a directory URL), and it rejects nothing that "
               "is inside (the code's test on relpath is exactly the 'outside' form of A-path-2 - the old two-character "
               "prefix test is not); Pages.ensure_absolute_path keeps confinement and maps every directory URL to its "
               "index.html; check_path_is_file answers (None, False) for a missing entry or a path below a regular file "
               "without raising, and (stat, S_ISREG) otherwise, issuing one stat on exactly the given path; the four "
               "applications (Files / Pages.__call__ on both interfaces, entering the helpers through their contracts) hand "
               "to os.stat only paths inside the configured directory - at most one (Files) or two (Pages: the path and "
               "path + '.html') -, serve only the path they stat'ed as a regular file, and produce exactly one outcome "
               "(response, redirect, handle_404 or HTTPException(404) when no handler is configured). BOUNDED "
               "(labelled): the assumptions A-path-* themselves and the 'nothing outside is ever opened' clause on a real "
               "file system are run on a real temp tree with parent/sibling secrets under an "
               "audit hook, against a lexical reference resolver, for all paths over a 14-segment alphabet to depth 2-3.",
    level_note="Trusted (and carrying most of the weight): os.path.join/abspath are functions of their arguments (A-path-1); "
               "relpath(p, d) is '..' or starts with '../' exactly when p is neither d nor below d (A-path-2); POSIX "
               "separator (A-posix); os.stat raises only FileNotFoundError / NotADirectoryError for request-dependent "
               "reasons (A-stat); the configured directory is absolute, normalised and not the root (it need not exist: the "
               "assumption A-dir-exists of the first version is gone since fix 432d0cc keeps the '.html' fallback away from "
               "'<directory>.html'). Calling the response object is recorded, "
               "not executed (its emissions are C02 / C05 / C14). Symbolic links inside the directory are followed (out of scope).",
    technique="deductive verification relative to assumed posixpath contracts (string theory); bounded run on a real tree with an audit hook and a lexical reference resolver",
    explanation="proved (relative to A-path-*): confinement and completeness of ensure_absolute_path, Pages index mapping, "
                "check_path_is_file, and the four applications Files / Pages __call__ (only paths inside the directory reach "
                "os.stat, what is served is what was checked, exactly one outcome, the 304 decision of C14); bounded: audit of "
                "touched paths on a real tree, validation of the path assumptions.",
)

PROPS["C12"] = dict(
    modules=["common", "hdrs", "c03", "c02", "c05", "c13", "c14", "c16", "c18", "c07", "c01", "c12"],
    contracts=["parse_range", "wsgi.FileResponse.__call__", "asgi.FileResponse.__call__", "if_none_match", "if_modified_since",
               "check_path_is_file", "URL._build_url", "request.cookies", "request.content_length", "request.date",
               "wsgi.Request.json", "asgi.Request.json", "wsgi.Request.form", "asgi.Request.form",
               "wsgi.HTTPConnection.url", "asgi.HTTPConnection.url", "MultipartDecoder.next_event[PART]", "URL.__repr__", "QueryParams.__init__[bytes]"],
    refute={"quick": [2], "thorough": [1, 2, 3]},
    native="c12",
    level="other",
    trusted=["A-py-1", "A-solver", "A-pyvc"],
    level_text="Mixed. Exception-freedom is a contract clause: for every function under contract the executor computes, path by "
               "path, which exception classes can escape (from the raise statements, the try/except structure of the real code "
               "and the raise clauses of the stubs for int(), decode(), dict[k], unpacking, os.stat, parsedate_to_datetime, ...) "
               "and every escaping class that the contract does not allow is an obligation `noraise.<Class>` (goal: the path is "
               "infeasible). PROVED: parse_range raises only MalformedRangeHeader / RangeNotSatisfiable (400/416), exactly under "
               "the stated conditions, also for numerals beyond int()'s digit limit; both FileResponse.__call__ turn them into "
               "400/416 responses and let nothing else escape for client-controlled input; if_none_match, if_modified_since, "
               "check_path_is_file (missing entry / path below a file), the cookie parser, content_length and date return a "
               "value for every header value; URL._build_url raises only for an unknown scheme or a non-UTF-8 query "
               "string; Request.json and Request.form (both interfaces) let only MalformedJSON / MalformedMultipart / "
               "RequestEntityTooLarge / UnsupportedMediaType / HTTPException(400) escape, each under its media-type condition, "
               "whatever decode(), json.loads() and the multipart helper raise from their catalogues (UnicodeDecodeError, "
               "LookupError, JSONDecodeError, plain ValueError for over-long integers, RecursionError); request.url turns "
               "urlsplit's ValueError and a non-UTF-8 path/query into a 400. BOUNDED (labelled): grammar-aware mutations and raw Latin-1 noise against every accessor, JSON / "
               "form / multipart parsing, routing and the static-file apps on both interfaces, classifying what escapes.",
    level_note="Trusted: the raise catalogue of the stubs (validated by the bounded layer). Both former findings (request.url with a "
               "malformed Host; undecodable urlencoded form) are repaired (fix: commits 6cc1798, 232cc6c). Functions not under "
               "contract (MultipartDecoder, Route.matches, Files/Pages.__call__) are covered by the bounded layer only.",
    technique="deductive verification: exceptional postconditions (allowed-exception sets) discharged per path over the real try/except structure, SMT; bounded grammar-aware fuzzing with known-finding regions",
    explanation="proved: allowed-exception sets of parse_range, FileResponse.__call__ (both), validator predicates, stat wrapper, "
                "cookie parser, content_length, date, _build_url, Request.json / Request.form / request.url (both interfaces), the multipart "
                "decoder's header-block step next_event[PART]; bounded: fuzzing of all entry points incl. JSON/form/multipart.",
)

PROPS["C01"] = dict(
    modules=["common", "hdrs", "c01"],
    contracts=["multipart.twins", "MultipartDecoder.last_newline", "MultipartDecoder.next_event[DATA]",
               "MultipartDecoder.next_event[PART]", "parse_stream"],
    no_refute=["multipart.twins"],
    refute={"quick": [2], "thorough": [1, 2]},
    native="c01",
    level="other",
    trusted=["A-py-1", "A-solver", "A-pyvc"],
    level_text="Mixed. The end-to-end clause (decoded parts == encoded parts for every chunking) is a statement over whole "
               "histories of receive_data / next_event calls and Python's leftmost regex search; it is BOUNDED: checked on the "
               "real decoder over enumerated contents (every string up to length 3-4 over {CR, LF, '-', boundary byte, x}) x "
               "boundaries x every chunking up to 2-3 cuts, through the event decoder, both stream helpers and both "
               "Request.form. PROVED, per step and for every buffer content and boundary: next_event in the DATA state "
               "(the streaming step) neither loses nor invents bytes - the old buffer is exactly emitted-data + (one delimiter "
               "match, only when the part ends) + new buffer -, ends the part exactly when the delimiter search matched, "
               "moves to EPILOGUE iff the delimiter carries the closing '--', leaves everything in place when it asks for "
               "more data, and releases while the part goes on only bytes that no later input can turn into the start of a "
               "delimiter: last_newline's hold-back point is such that no suffix starting before it is 'a line break "
               "followed by break-free text' (the shape of every incomplete delimiter).  Also PROVED: parse_async_stream is "
               "parse_stream after await-erasure and the declared renamings (AST identity, also for Request.form and "
               "_parse_multipart of both interfaces), so chunking behaviour of the helpers is identical by construction; "
               "last_newline returns the earlier of the last CR and the last LF, or len(buffer); parse_stream's event loop "
               "produces one item per completed part, relative to the decoder's event contract.",
    level_note="Trusted: the decoder's event grammar as a ghost script (A-decoder-events); bytearray.rindex (A-bytes); re semantics; "
               "SpooledTemporaryFile. The regex search of the DATA step is a stub (A-re-search: a match is line-break '--' boundary tail; leftmost-ness is not "
               "used); the PART step is proved with the header parser as a stub (next_event[PART]); the PREAMBLE / EPILOGUE steps, the header parser's body and the composition of steps into the "
               "end-to-end clause are bounded only.",
    technique="deductive verification of the decoder's streaming step (byte conservation, safe hold-back, state transition; SMT strings) and of the helper twins / event loop; bounded exhaustive enumeration on the real decoder for the end-to-end clause (labelled)",
    explanation="proved: next_event[DATA] conservation and safe release, next_event[PART] (header block consumed, raise catalogue), last_newline, helper twins are the same program, one item per "
                "part in parse_stream; bounded: end-to-end exactness and chunking independence (enumerated contents x chunkings).",
)

PROPS["C15"] = dict(
    modules=["common", "hdrs", "c01"],
    contracts=["parse_stream", "multipart.twins", "MultipartDecoder.last_newline", "MultipartDecoder.next_event[DATA]"],
    no_refute=["multipart.twins"],
    refute={"quick": [2], "thorough": [1, 2]},
    native="c15",
    level="other",
    trusted=["A-py-1", "A-solver", "A-pyvc"],
    level_text="Mixed. PROVED (relative to the decoder's event contract, for event scripts of any length and any chunk list): the "
               "helper's two counters equal the number of completed parts and the total size of non-file field data consumed so "
               "far (loop invariant over both nested loops); it returns normally only with both totals within their limits, and "
               "raises 413 exactly at the event that pushes a total over its limit (parts == max+1, or field bytes > limit while "
               "they were <= limit before that event); the totals are sums of lengths, hence independent of how Data events are "
               "split; the async helper is the same program (AST lemma). BOUNDED (labelled): 413 exactness end-to-end around "
               "the exact totals (-1, 0, +1) x chunkings on both helpers, and the buffering bound monitored on the real decoder.",
    level_note="Trusted: the decoder's event grammar (A-decoder-events). Known finding (open): the buffering bound does not hold - "
               "a part whose data contains a lone CR or LF followed by a long run without a line break is buffered whole (the "
               "hold-back starts at the earlier of the last CR and the last LF); shape of Werkzeug CVE-2023-46136; a correct "
               "repair rewrites the hold-back computation and is not small.",
    technique="deductive verification: ghost accounting + loop invariants on the real helper against the decoder's event contract, AST identity lemma for the async twin, SMT; bounded limit grid and buffer monitor",
    explanation="proved: limit exactness of parse_stream (and by identity parse_async_stream); bounded: end-to-end 413 grid, buffer bound "
                "(known finding).",
)

PROPS["C04"] = dict(
    modules=["common", "hdrs", "c03", "c02", "c05", "c09", "c08", "c13", "c14", "c07", "c01", "c04"],
    contracts=["c04.equivalence", "wsgi.Files.file_response", "asgi.Files.file_response", "wsgi.Response.__call__", "asgi.Response.__call__",
               "wsgi.SmallResponse.__call__", "asgi.SmallResponse.__call__", "wsgi.RedirectResponse.__init__", "asgi.RedirectResponse.__init__",
               "wsgi.Subpaths.__call__", "asgi.Subpaths.__call__", "wsgi.Router.__call__", "asgi.Router.__call__",
               "wsgi.Hosts.__call__", "asgi.Hosts.__call__", "wsgi.Pages.ensure_absolute_path", "asgi.Pages.ensure_absolute_path"],
    no_refute=["c04.equivalence"],
    refute={"quick": [2], "thorough": [1, 2]},
    native="c04",
    level="other",
    trusted=["A-py-1", "A-solver", "A-pyvc"],
    level_text="Relational property decided as 'both copies satisfy the same functional contract'. PROVED: (a) 14 twin functions "
               "(Files.file_response, Pages.ensure_absolute_path, the response constructors, render methods, Request.form, "
               "_parse_multipart, decorator, the multipart helpers) are the SAME PROGRAM after await-erasure and the declared "
               "renamings (AST identity lemmas on the real source); (b) for the pairs that differ structurally (file handlers and "
               "dispatch, Response / SmallResponse __call__, Subpaths, Router, Hosts) each side is verified against its contract "
               "(obligations of C02/C05/C08/C09/C14 re-run here) and a lemma checks that the functional clauses of the two "
               "contracts are textually identical up to the sanctioned gateway renamings (status line vs status int, chunk vs "
               "body event). BOUNDED (labelled): the request view (all accessors incl. body/json/form/uploads over chunkings) and "
               "responses/apps are compared differentially on both stacks over a grid.",
    level_note="Trusted: the server's environ<->scope mapping (PEP 3333 naming, duplicate folding, Latin-1/UTF-8 transcoding) is "
               "built by the harness; WebSocket has no WSGI twin; is_disconnected is ASGI-only. Known finding (open): an EMPTY "
               "Range header value is 'absent' on ASGI (200) and 'present' on WSGI (400).",
    technique="deductive: AST-identity lemmas after await-erasure + shared functional contracts discharged on both copies (SMT) + clause-equality lemma; bounded differential run of both stacks",
    explanation="proved: twin functions are the same program; paired contracts share their functional clauses and are discharged on "
                "both sides; bounded: differential request-view / response / app comparison.",
)

NOT_APPLICABLE = {
    "C06": "quantifies over schedules/interleavings (relay thread vs consumer vs closer, asyncio tasks vs ping timer) and is a "
           "bounded-liveness claim; contracts over a sequential, await-erased semantics cannot express an interleaving and "
           "partial-correctness obligations say nothing about termination (DESIGN.md section 7)",
}
