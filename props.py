"""Per-property configuration of ./check: which contracts, which bounded refuter shapes, which native stand-in."""

PROPS = {
    "C03": dict(
        modules=["common", "c03"],
        contracts=["parse_range"],
        canary_contracts=["parse_range"],
        refute={"quick": [1, 2], "thorough": [0, 1, 2, 3]},
        native="c03",
        level="proof",
        trusted=["A-py-1", "A-solver", "A-pyvc"],
        explanation="",
    ),
}
