"""dev helper: python3 tools_mut.py <PROP> <relpath> <old> <new> [tier]  -- or --  <PROP> --patch file.diff [tier]
runs ./check against a scratch copy of /repo (VERIF_REPO), never touching /repo or the committed evidence."""
import os, shutil, subprocess, sys, tempfile


def main():
    prop = sys.argv[1]
    d = tempfile.mkdtemp(prefix="verif_mut_")
    try:
        shutil.copytree("/repo/baize", os.path.join(d, "baize"))
        if sys.argv[2] == "--patch":
            r = subprocess.run(["patch", "-p1", "-d", d, "-i", os.path.abspath(sys.argv[3])], capture_output=True, text=True)
            if r.returncode:
                print("patch failed", r.stdout, r.stderr)
                return 2
            tier = sys.argv[4] if len(sys.argv) > 4 else "quick"
        else:
            rel, old, new = sys.argv[2:5]
            p = os.path.join(d, rel)
            s = open(p).read()
            if old not in s:
                print("pattern not found")
                return 2
            open(p, "w").write(s.replace(old, new, 1))
            tier = sys.argv[5] if len(sys.argv) > 5 else "quick"
        env = dict(os.environ, VERIF_REPO=d)
        r = subprocess.run(["./check", prop, "--tier", tier], env=env, cwd="/verif", capture_output=True, text=True)
        print(r.stdout[-3000:], r.stderr[-1500:])
        print("exit=%d" % r.returncode)
        return 0
    finally:
        shutil.rmtree(d, ignore_errors=True)


sys.exit(main())
