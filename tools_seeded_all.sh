#!/bin/sh
# development helper: every seeded change against the check of its property (scratch copies, /repo untouched)
cd "$(dirname "$0")"
for d in seeded/*/; do
  id=$(basename $d); prop=$(python3 -c "import json;print(json.load(open('$d/meta.json'))['property'])")
  r=$(python3 tools_mut.py $prop --patch $d/patch.diff 2>&1 | grep "tier=" | tail -1)
  echo "$id $r"
done
