"""regenerate MANIFEST.json from props.py (python3 tools_manifest.py)"""
import json
import sys

sys.path.insert(0, "/verif")
from props import PROPS, NOT_APPLICABLE  # noqa

props = [json.loads(l) for l in open("/verif/properties.jsonl")]
checks = []
for p in props:
    pid = p["id"]
    if pid not in PROPS or not PROPS[pid].get("claimed", True):
        continue
    c = PROPS[pid]
    checks.append({
        "property_id": pid,
        "quick_cmd": "./check %s --tier quick" % pid,
        "thorough_cmd": "./check %s --tier thorough" % pid,
        "evidence_file": "/verif/evidence/%s.json" % pid,
        "replay_cmd_template": "./check %s --replay {path}" % pid,
        "engine": "pyvc",
        "level_claimed": {"category": c["level"], "text": c["level_text"], "design_ref": c.get("design_ref", "DESIGN.md section 6, " + pid)},
        "level_note": c["level_note"],
        "technique": c["technique"],
    })
na = []
for p in props:
    pid = p["id"]
    if pid in PROPS and PROPS[pid].get("claimed", True):
        continue
    na.append({"property_id": pid, "reason": NOT_APPLICABLE.get(pid, "check not built yet (build in progress; see DESIGN.md section 9)")})
m = {
    "version": 1,
    "setup_cmd": "python3-vt -m pyvc.selfcheck",
    "hooks": {"guard": "BAIZE_VERIF",
              "enable": "no hooks in /repo are needed: contracts are sidecar files under /verif/contracts and the verified text is /repo's working tree, re-read on every run",
              "baseline_off_cmd": "cd /repo && /venv/bin/python -m pytest -ra -q -p no:cacheprovider --timeout=900 --continue-on-collection-errors",
              "source_commits": [], "add_only": True},
    "engines": [{"name": "pyvc", "path": "/verif/pyvc", "serves_properties": [c["property_id"] for c in checks],
                 "kind_free_text": "contract-based deductive verifier for the Python subset used by baize: VC generation from the real AST (path-wise symbolic execution, loops cut at invariants, calls replaced by callee contracts), obligations discharged by z3 5.1 / cvc5 1.0.3 / z3 4.8.12; bounded symbolic refuter and native bounded stand-ins beside it (labelled bounded)"}],
    "checks": checks,
    "not_applicable": na,
    "notes": "fix: commits in /repo (unguarded, genuine defects) are listed in /verif/known_findings.json as 'fixed' entries and in DESIGN.md section 15.",
}
json.dump(m, open("/verif/MANIFEST.json", "w"), indent=1)
print("checks:", [c["property_id"] for c in checks], "n/a:", len(na))
